'''A real BP agent (routing, fragmentation, BPSec, administrative steps) in a
simulated process, attached over the loop-back bus to a recording
convergence-layer service, with a probe application registered through the
public application decorator.'''
import re

from gi.repository import GLib

from . import env as _env
from .world import World, HarnessError, Violation

CL_PATH = '/org/ietf/dtn/udpcl/Agent'
CL_IFACE = 'org.ietf.dtn.udpcl.Agent'
CL_NAME = 'org.ietf.dtn.udpcl.recording'
AGENT_PATH = '/org/ietf/dtn/bp/Agent'

_PROBE_READY = False


def _install_probe():
    '''Register the probe application once per interpreter (the registry is a
    module-level dictionary filled by decorators at import time).'''
    global _PROBE_READY
    ns = _env.load_bp()
    if _PROBE_READY:
        return
    base = ns.app_base
    util = ns.util

    @base.app('probe')
    class Probe(base.AbstractApplication):
        '''Records every bundle that reaches an application step with the
        'deliver' action, i.e. what an application would be handed.'''

        def __init__(self, *args, **kwargs):
            super().__init__(*args, **kwargs)
            self.seen = []

        def add_chains(self, rx_chain, tx_chain):
            rx_chain.append(util.ChainStep(order=25, name='verification probe', action=self._probe))

        def _probe(self, ctr):
            if 'deliver' not in ctr.actions:
                return
            from bp.encoding import PrimaryBlock
            pri = ctr.bundle.primary
            if pri.bundle_flags & PrimaryBlock.Flag.IS_FRAGMENT:
                return
            blocks = []
            for blk in ctr.bundle.blocks:
                blocks.append((int(blk.type_code), int(blk.block_num) if blk.block_num is not None else None,
                               bytes(blk.getfieldval('btsd') or b'').hex()))
            self.seen.append(dict(dest=pri.destination, src=pri.source,
                                  ts=(pri.create_ts.getfieldval('dtntime'), pri.create_ts.getfieldval('seqno')),
                                  blocks=blocks))

    _PROBE_READY = True


def make_cl_class():
    import dbus.service

    class RecordingCl(dbus.service.Object):
        '''Convergence-layer service seen by the BP agent over the bus.'''

        def __init__(self, conn):
            dbus.service.Object.__init__(self, conn=conn, object_path=CL_PATH)
            self.sent = []     # (octets, tx parameters) handed to the CL, in order
            self.rx = {}
            self.next_id = 0
            self.refuse_over = None    # fault: refuse bundles longer than this
            self.refused = []

        @dbus.service.method(CL_IFACE, in_signature='aya{sv}', out_signature='s')
        def send_bundle_data(self, data, tx_params):
            if self.refuse_over is not None and len(data) > self.refuse_over:
                # the convergence layer cannot take this bundle (error reply over the bus)
                self.refused.append(len(data))
                raise dbus.exceptions.DBusException('bundle of %d octets refused by the convergence layer' % len(data))
            self.sent.append((bytes(int(b) for b in data), {str(k): v for (k, v) in dict(tx_params).items()}))
            return str(len(self.sent))

        @dbus.service.signal(CL_IFACE, signature='sta{sv}')
        def recv_bundle_finished(self, bid, length, metadata):
            pass

        @dbus.service.signal(CL_IFACE, signature='xissq')
        def polling_received(self, dtntime, interval_ms, node_id, address, port):
            pass

        @dbus.service.method(CL_IFACE, in_signature='s', out_signature='ay')
        def recv_bundle_pop_data(self, bid):
            return self.rx.pop(int(bid))

        def inject(self, data):
            bid = self.next_id
            self.next_id += 1
            self.rx[bid] = bytes(data)
            self.recv_bundle_finished(str(bid), len(data), {'address': '10.9.9.9', 'port': 4556})

    return RecordingCl


_CL_CLASS = None


def default_params():
    return dict(
        node_id='dtn://node/',
        rx_routes=[('^dtn://node/.*', 'deliver'), ('.*', 'forward')],
        tx_routes=[('.*', 'dtn://next/', None)],      # (pattern, next hop, mtu)
        accept_after_verify=False,
        start_us=1700000000 * 10 ** 6 - 1704067200 * 10 ** 6 + 10 ** 12,
        max_quiesce=400,
    )


class BpWorld(World):
    def __init__(self, params=None):
        global _CL_CLASS
        World.__init__(self)
        prm = default_params()
        if params:
            prm.update(params)
        self.params = prm
        _install_probe()
        ns = _env.load_bp()
        self.clock.now_us = prm['start_us']
        proc = self.add_proc('N')
        cfgmod = ns.config
        cfg = cfgmod.Config(
            node_id=prm['node_id'],
            rx_route_table=[cfgmod.RxRouteItem(eid_pattern=re.compile(p), action=a) for (p, a) in prm['rx_routes']],
            tx_route_table=[cfgmod.TxRouteItem(eid_pattern=re.compile(p), next_nodeid=n, cl_type='udpcl', mtu=m,
                                               raw_config=dict(address='10.0.0.9', port=4556))
                            for (p, n, m) in prm['tx_routes']],
            accept_after_verify=prm['accept_after_verify'],
        )
        if prm.get('config_text') is not None:
            # the way the daemon gets its settings: the configuration file over the defaults
            import io
            cfg.from_file(io.StringIO(prm['config_text']))
        self.cfg = cfg
        cfg._bus_conn = proc.bus
        if _CL_CLASS is None:
            _CL_CLASS = make_cl_class()

        def make():
            proc.bus.request_name(CL_NAME)
            cl = _CL_CLASS(proc.bus)
            agent = ns.agent.Agent(cfg, bus_kwargs=dict(conn=proc.bus, object_path=AGENT_PATH))
            agent.cl_attach('udpcl', CL_NAME)
            return (cl, agent)
        (cl, agent) = self.in_proc(proc, make)
        proc.roots['cl'] = cl
        proc.roots['agent'] = agent
        cl.refuse_over = prm.get('cl_refuse_over')
        self.escaped = []
        self.api_errors = []
        proc.bus.drain_records()

    @property
    def proc(self):
        return self.procs['N']

    @property
    def cl(self):
        return self.procs['N'].roots['cl']

    @property
    def agent(self):
        return self.procs['N'].roots['agent']

    def app(self, name):
        return self.proc.bus._objects['/org/ietf/dtn/bp/app/%s' % name]

    @property
    def probe(self):
        return self.app('probe')

    def cose(self):
        return self.app('bpsec').get_context(3)

    # ---- driving
    def receive(self, data):
        '''A bundle arrives from the convergence layer.  An exception leaving
        the signal handler is recorded (the real bus would log and drop it).'''
        self.activate(self.proc)
        try:
            try:
                self.cl.inject(data)
            except Exception as err:
                import traceback
                self.api_errors.append((type(err).__name__, str(err), traceback.format_exc()))
        finally:
            GLib.set_current(None)
        self.proc.bus.drain_records()

    def send(self, ctr):
        '''The local application asks the agent to send a bundle.'''
        self.activate(self.proc)
        try:
            try:
                self.agent.send_bundle(ctr)
                return None
            except Exception as err:
                import traceback
                self.api_errors.append((type(err).__name__, str(err), traceback.format_exc()))
                return err
        finally:
            GLib.set_current(None)
            self.proc.bus.drain_records()

    def run_one(self):
        (viols, _eff) = self.apply(('run', 'N'))
        return viols

    def quiesce(self):
        steps = 0
        while self.runnable(self.proc):
            steps += 1
            if steps > self.params['max_quiesce']:
                raise HarnessError('agent does not become quiescent')
            self.apply(('run', 'N'))

    def collect(self, event):
        proc = self.proc
        for esc in proc.ctx.escaped:
            self.escaped.append((esc.exc_type, esc.source_kind, esc.exc_text, esc.tb))
        proc.ctx.escaped = []
        proc.bus.drain_records()
        proc.ctx.warnings = []
        return []

    def sent(self):
        return [data for (data, _p) in self.cl.sent]

    def canon_extra(self, c):
        c.walk(self.escaped)
        c.walk(self.api_errors)
