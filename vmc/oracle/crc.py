'''Independent bit-serial CRC-16/X.25 and CRC-32C (Castagnoli).'''


def _crc_reflected(data, width, poly_reflected):
    mask = (1 << width) - 1
    reg = mask
    for octet in bytes(data):
        reg ^= octet
        for _ in range(8):
            if reg & 1:
                reg = (reg >> 1) ^ poly_reflected
            else:
                reg >>= 1
    return (reg ^ mask) & mask


def crc16_x25(data):
    return _crc_reflected(data, 16, 0x8408)


def crc32c(data):
    return _crc_reflected(data, 32, 0x82F63B78)


assert crc16_x25(b'123456789') == 0x906E
assert crc32c(b'123456789') == 0xE3069283
