'''Independent RFC 9171 (BPv7) bundle codec to plain Python values, with a
well-formedness predicate, CRC computation, status reports (section 6.1.1) and
the RFC 9172 abstract security block.  Imports nothing from /repo, scapy or
cbor2.'''
from . import cbor_min as C
from . import crc as CRC

FLAG_IS_FRAGMENT = 0x000001
FLAG_ADMIN = 0x000002
FLAG_NO_FRAGMENT = 0x000004
FLAG_USER_ACK = 0x000020
FLAG_STATUS_TIME = 0x000040
FLAG_REQ_RECEPTION = 0x004000
FLAG_REQ_FORWARD = 0x010000
FLAG_REQ_DELIVERY = 0x020000
FLAG_REQ_DELETION = 0x040000

BLK_REPLICATE = 0x01

T_PAYLOAD = 1
T_PREV_NODE = 6
T_AGE = 7
T_HOP_COUNT = 10
T_BIB = 11
T_BCB = 12


class Malformed(Exception):
    pass


# ---------------------------------------------------------------------------
# EIDs

def eid_to_item(eid):
    '''Text URI -> CBOR item value.'''
    if eid is None or eid == 'dtn:none':
        return [1, 0]
    if eid.startswith('dtn:'):
        return [1, eid[4:]]
    if eid.startswith('ipn:'):
        return [2, [int(p) for p in eid[4:].split('.')]]
    raise ValueError('unsupported EID %r' % (eid,))


def item_to_eid(item):
    if not isinstance(item, list) or len(item) != 2:
        raise Malformed('EID is not a 2-element array')
    (scheme, ssp) = item
    if scheme == 1:
        if ssp == 0:
            return 'dtn:none'
        if isinstance(ssp, str):
            return 'dtn:' + ssp
        raise Malformed('dtn SSP neither 0 nor text')
    if scheme == 2:
        if isinstance(ssp, list) and len(ssp) in (2, 3) and all(type(p) is int and p >= 0 for p in ssp):
            return 'ipn:' + '.'.join(str(p) for p in ssp)
        raise Malformed('ipn SSP is not an array of 2 or 3 unsigned integers')
    raise Malformed('unknown EID scheme %r' % (scheme,))


# ---------------------------------------------------------------------------
# blocks

def crc_len(crc_type):
    return {0: 0, 1: 2, 2: 4}[crc_type]


def crc_of(crc_type, data):
    if crc_type == 1:
        return CRC.crc16_x25(data).to_bytes(2, 'big')
    if crc_type == 2:
        return CRC.crc32c(data).to_bytes(4, 'big')
    raise ValueError('no CRC for type %r' % (crc_type,))


def primary_items(pri, crc_field):
    items = [pri.get('version', 7), pri['flags'], pri['crc_type'], eid_to_item(pri['dest']),
             eid_to_item(pri['src']), eid_to_item(pri['report_to']), list(pri['ts']), pri['lifetime']]
    if pri['flags'] & FLAG_IS_FRAGMENT:
        items += [pri['frag_offset'], pri['total_adu']]
    if pri['crc_type']:
        items.append(crc_field)
    return items


def enc_primary(pri, crc='compute'):
    if pri['crc_type'] == 0:
        return C.dumps(primary_items(pri, None))
    if crc == 'compute':
        zero = C.dumps(primary_items(pri, bytes(crc_len(pri['crc_type']))))
        crc = crc_of(pri['crc_type'], zero)
    return C.dumps(primary_items(pri, crc))


def canonical_items(blk, crc_field):
    items = [blk['type'], blk['num'], blk['flags'], blk['crc_type'], bytes(blk['data'])]
    if blk['crc_type']:
        items.append(crc_field)
    return items


def enc_canonical(blk, crc='compute'):
    if blk['crc_type'] == 0:
        return C.dumps(canonical_items(blk, None))
    if crc == 'compute':
        zero = C.dumps(canonical_items(blk, bytes(crc_len(blk['crc_type']))))
        crc = crc_of(blk['crc_type'], zero)
    return C.dumps(canonical_items(blk, crc))


def encode(bundle):
    '''bundle = dict(primary=..., blocks=[...]) -> octets.'''
    parts = [enc_primary(bundle['primary'], bundle['primary'].get('crc', 'compute') or 'compute')]
    for blk in bundle['blocks']:
        parts.append(enc_canonical(blk, blk.get('crc', 'compute') or 'compute'))
    return C.dumps_indef_array(parts)


def decode(data, strict=True):
    '''Octets -> bundle dict.  Raises Malformed when the octets are not the RFC
    9171 structure.  Each block dict carries 'span' (start, end) in the input,
    'crc' (octets or None) and 'crc_ok'.'''
    data = bytes(data)
    try:
        (items, end, info) = C.load(data, 0)
    except C.DecodeError as err:
        raise Malformed('not CBOR: %s' % err)
    if end != len(data):
        raise Malformed('%d octets after the bundle' % (len(data) - end))
    if not isinstance(items, list) or not isinstance(info, dict) or 'spans' not in info:
        raise Malformed('bundle is not an array')
    if not info['indef']:
        raise Malformed('outer array is not of indefinite length')
    if len(items) < 2:
        raise Malformed('bundle needs a primary block and a payload block')
    pri_raw = items[0]
    pinfo = info['infos'][0]
    if not isinstance(pri_raw, list) or pinfo.get('indef'):
        raise Malformed('primary block is not a definite-length array')
    if not 8 <= len(pri_raw) <= 11:
        raise Malformed('primary block has %d items' % len(pri_raw))
    for (idx, name) in ((0, 'version'), (1, 'flags'), (2, 'crc type'), (7, 'lifetime')):
        if not isinstance(pri_raw[idx], int) or isinstance(pri_raw[idx], bool) or pri_raw[idx] < 0:
            raise Malformed('primary %s is not an unsigned integer' % name)
    if pri_raw[0] != 7:
        raise Malformed('version %r' % (pri_raw[0],))
    flags = pri_raw[1]
    crc_type = pri_raw[2]
    if crc_type not in (0, 1, 2):
        raise Malformed('primary CRC type %r' % (crc_type,))
    want = 8 + (2 if flags & FLAG_IS_FRAGMENT else 0) + (1 if crc_type else 0)
    if len(pri_raw) != want:
        raise Malformed('primary block has %d items, flags/CRC type require %d' % (len(pri_raw), want))
    ts = pri_raw[6]
    if not (isinstance(ts, list) and len(ts) == 2 and all(type(t) is int and t >= 0 for t in ts)):
        raise Malformed('creation timestamp')
    pri = dict(version=7, flags=flags, crc_type=crc_type, dest=item_to_eid(pri_raw[3]), src=item_to_eid(pri_raw[4]),
               report_to=item_to_eid(pri_raw[5]), ts=(ts[0], ts[1]), lifetime=pri_raw[7])
    pos = 8
    if flags & FLAG_IS_FRAGMENT:
        (pri['frag_offset'], pri['total_adu']) = pri_raw[8:10]
        if not all(type(v) is int and v >= 0 for v in pri_raw[8:10]):
            raise Malformed('fragment fields')
        pos = 10
    pri['crc'] = None
    pri['crc_ok'] = True
    pri['span'] = info['spans'][0]
    if crc_type:
        crc = pri_raw[pos]
        if not isinstance(crc, bytes) or len(crc) != crc_len(crc_type):
            raise Malformed('primary CRC field')
        pri['crc'] = crc
        # the CRC covers the octets as received, with the CRC field (the final item) zeroed
        (s0, s1) = pri['span']
        pri['crc_ok'] = (crc_of(crc_type, data[s0:s1 - len(crc)] + bytes(len(crc))) == crc)
        if strict and enc_primary(pri, crc) != data[pri['span'][0]:pri['span'][1]]:
            raise Malformed('primary block is not in the preferred (shortest) encoding')
    blocks = []
    nums = set()
    for (idx, raw) in enumerate(items[1:], start=1):
        binfo = info['infos'][idx]
        if not isinstance(raw, list) or binfo.get('indef'):
            raise Malformed('block %d is not a definite-length array' % idx)
        if len(raw) not in (5, 6):
            raise Malformed('canonical block has %d items' % len(raw))
        for (j, name) in ((0, 'type'), (1, 'number'), (2, 'flags'), (3, 'crc type')):
            if not isinstance(raw[j], int) or isinstance(raw[j], bool) or raw[j] < 0:
                raise Malformed('block %s is not an unsigned integer' % name)
        if raw[3] not in (0, 1, 2):
            raise Malformed('block CRC type %r' % (raw[3],))
        if len(raw) != 5 + (1 if raw[3] else 0):
            raise Malformed('block item count does not match CRC type')
        if not isinstance(raw[4], bytes):
            raise Malformed('block-type-specific data is not a byte string')
        blk = dict(type=raw[0], num=raw[1], flags=raw[2], crc_type=raw[3], data=raw[4], crc=None, crc_ok=True,
                   span=info['spans'][idx])
        if raw[3]:
            crc = raw[5]
            if not isinstance(crc, bytes) or len(crc) != crc_len(raw[3]):
                raise Malformed('block CRC field')
            blk['crc'] = crc
            (s0, s1) = blk['span']
            blk['crc_ok'] = (crc_of(raw[3], data[s0:s1 - len(crc)] + bytes(len(crc))) == crc)
        if blk['num'] in nums:
            raise Malformed('duplicate block number %d' % blk['num'])
        if blk['num'] == 0:
            raise Malformed('block number 0')
        nums.add(blk['num'])
        blocks.append(blk)
    if blocks[-1]['type'] != T_PAYLOAD:
        raise Malformed('last block is not the payload block')
    if blocks[-1]['num'] != 1:
        raise Malformed('payload block number is %d' % blocks[-1]['num'])
    if any(b['type'] == T_PAYLOAD for b in blocks[:-1]):
        raise Malformed('more than one payload block')
    if any(b['num'] == 1 for b in blocks[:-1]):
        raise Malformed('block number 1 used by a non-payload block')
    return dict(primary=pri, blocks=blocks)


def strip(bundle):
    '''Field values only (no spans / CRC verdicts) for comparisons.'''
    pri = {k: v for (k, v) in bundle['primary'].items() if k not in ('span', 'crc', 'crc_ok')}
    blocks = [{k: v for (k, v) in b.items() if k not in ('span', 'crc', 'crc_ok')} for b in bundle['blocks']]
    return dict(primary=pri, blocks=blocks)


def payload(bundle):
    return bundle['blocks'][-1]['data']


# ---------------------------------------------------------------------------
# extension block data

def enc_prev_node(eid):
    return C.dumps(eid_to_item(eid))


def dec_prev_node(data):
    return item_to_eid(C.loads(data))


def enc_age(ms):
    return C.dumps(ms)


def dec_age(data):
    val = C.loads(data)
    if not isinstance(val, int) or val < 0:
        raise Malformed('bundle age')
    return val


def enc_hop_count(limit, count):
    return C.dumps([limit, count])


def dec_hop_count(data):
    val = C.loads(data)
    if not (isinstance(val, list) and len(val) == 2 and all(isinstance(v, int) and v >= 0 for v in val)):
        raise Malformed('hop count')
    return tuple(val)


# ---------------------------------------------------------------------------
# status report (administrative record type 1)

def enc_status_report(status, reason, subj_src, subj_ts, frag=None):
    '''status: list of 4 (asserted, time-or-None) in order received, forwarded,
    delivered, deleted.'''
    infos = []
    for (flag, when) in status:
        infos.append([bool(flag)] + ([when] if when is not None else []))
    body = [infos, reason, eid_to_item(subj_src), list(subj_ts)]
    if frag is not None:
        body += [frag[0], frag[1]]
    return C.dumps([1, body])


def dec_admin_record(data):
    rec = C.loads(data)
    if not (isinstance(rec, list) and len(rec) == 2 and isinstance(rec[0], int)):
        raise Malformed('administrative record is not [type, content]')
    return rec[0], rec[1]


def dec_status_report(data):
    (rtype, body) = dec_admin_record(data)
    if rtype != 1:
        raise Malformed('not a status report')
    if not (isinstance(body, list) and len(body) in (4, 6)):
        raise Malformed('status report has %r items' % (len(body) if isinstance(body, list) else body,))
    infos = body[0]
    if not (isinstance(infos, list) and len(infos) == 4):
        raise Malformed('status information array')
    status = []
    for info in infos:
        if not (isinstance(info, list) and len(info) in (1, 2) and isinstance(info[0], bool)):
            raise Malformed('status assertion %r' % (info,))
        if len(info) == 2 and not (isinstance(info[1], int) and info[1] >= 0):
            raise Malformed('status time')
        status.append((info[0], info[1] if len(info) == 2 else None))
    out = dict(status=status, reason=body[1], subj_src=item_to_eid(body[2]), subj_ts=tuple(body[3]), frag=None)
    if len(body) == 6:
        out['frag'] = (body[4], body[5])
    return out


# ---------------------------------------------------------------------------
# RFC 9172 abstract security block (a CBOR sequence inside the BTSD)

def dec_asb(data):
    data = bytes(data)
    pos = 0
    seq = []
    while pos < len(data):
        try:
            (item, pos, _info) = C.load(data, pos)
        except C.DecodeError as err:
            raise Malformed('security block: %s' % err)
        seq.append(item)
    if len(seq) not in (5, 6):
        raise Malformed('security block has %d items' % len(seq))
    targets, ctx, flags, src = seq[0], seq[1], seq[2], seq[3]
    if not (isinstance(targets, list) and targets and all(type(t) is int and t >= 0 for t in targets)):
        raise Malformed('security targets')
    if type(ctx) is not int or type(flags) is not int or flags < 0:
        raise Malformed('security context id / flags')
    params = []
    if flags & 1:
        if len(seq) != 6:
            raise Malformed('parameters flag set but parameters missing')
        params = seq[4]
        results = seq[5]
    else:
        if len(seq) != 5:
            raise Malformed('unexpected parameters')
        results = seq[4]
    def pairs(seq_):
        if not isinstance(seq_, list):
            raise Malformed('security parameters/results are not an array')
        out = []
        for item in seq_:
            if not (isinstance(item, list) and len(item) == 2 and type(item[0]) is int):
                raise Malformed('security parameter/result is not an [id, value] pair')
            out.append(tuple(item))
        return out
    if not isinstance(results, list):
        raise Malformed('security results are not an array')
    return dict(targets=targets, context=ctx, flags=flags, source=item_to_eid(src),
                params=pairs(params), results=[pairs(tr) for tr in results])


def enc_asb(asb):
    out = C.dumps(list(asb['targets'])) + C.dumps(asb['context']) + C.dumps(asb['flags']) + C.dumps(eid_to_item(asb['source']))
    if asb['flags'] & 1:
        out += C.dumps([list(p) for p in asb['params']])
    out += C.dumps([[list(r) for r in tr] for tr in asb['results']])
    return out
