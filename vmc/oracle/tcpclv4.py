'''Independent RFC 9174 (TCPCLv4) wire codec: encoders for every message type
and an incremental stream decoder.  Does not import /repo, scapy or cbor2.

Assumption recorded in DESIGN.md: the two body octets of MSG_REJECT are taken
in the order the repository's pinned tests fix (rejected-message header, then
reason code).
'''
import struct

MAGIC = b'dtn!'

XFER_SEGMENT = 0x01
XFER_ACK = 0x02
XFER_REFUSE = 0x03
KEEPALIVE = 0x04
SESS_TERM = 0x05
MSG_REJECT = 0x06
SESS_INIT = 0x07

NAMES = {1: 'XFER_SEGMENT', 2: 'XFER_ACK', 3: 'XFER_REFUSE', 4: 'KEEPALIVE',
         5: 'SESS_TERM', 6: 'MSG_REJECT', 7: 'SESS_INIT'}

FLAG_END = 0x01
FLAG_START = 0x02
TERM_REPLY = 0x01
EXT_CRITICAL = 0x01
EXT_TRANSFER_LENGTH = 0x0001


def enc_contact(flags=0, magic=MAGIC, version=4):
    return bytes(magic) + bytes([version, flags])


def enc_ext_items(items):
    out = b''
    for (flags, typ, value) in items:
        out += struct.pack('!BHH', flags, typ, len(value)) + bytes(value)
    return out


def enc_sess_init(keepalive=0, segment_mru=2 ** 64 - 1, transfer_mru=2 ** 64 - 1, node_id=b'', ext=()):
    if isinstance(node_id, str):
        node_id = node_id.encode('utf-8')
    extdata = enc_ext_items(ext)
    return (bytes([SESS_INIT]) + struct.pack('!HQQH', keepalive, segment_mru, transfer_mru, len(node_id))
            + node_id + struct.pack('!I', len(extdata)) + extdata)


def enc_segment(flags, transfer_id, data, ext=()):
    out = bytes([XFER_SEGMENT, flags]) + struct.pack('!Q', transfer_id)
    if flags & FLAG_START:
        extdata = enc_ext_items(ext)
        out += struct.pack('!I', len(extdata)) + extdata
    out += struct.pack('!Q', len(data)) + bytes(data)
    return out


def ext_total_length(total):
    return (0, EXT_TRANSFER_LENGTH, struct.pack('!Q', total))


def enc_ack(flags, transfer_id, length):
    return bytes([XFER_ACK, flags]) + struct.pack('!QQ', transfer_id, length)


def enc_refuse(reason, transfer_id):
    return bytes([XFER_REFUSE, reason]) + struct.pack('!Q', transfer_id)


def enc_keepalive():
    return bytes([KEEPALIVE])


def enc_sess_term(flags=0, reason=0):
    return bytes([SESS_TERM, flags, reason])


def enc_reject(rej_msg_id, reason):
    return bytes([MSG_REJECT, rej_msg_id, reason])


class Partial(Exception):
    '''Not enough octets yet.'''


class Malformed(Exception):
    '''The stream cannot be a TCPCLv4 stream from here on.'''


def _need(buf, pos, n):
    if len(buf) - pos < n:
        raise Partial()


def parse_ext_items(data):
    items = []
    pos = 0
    while pos < len(data):
        if len(data) - pos < 5:
            raise Malformed('truncated extension item header')
        (flags, typ, length) = struct.unpack_from('!BHH', data, pos)
        pos += 5
        if len(data) - pos < length:
            raise Malformed('truncated extension item value')
        items.append((flags, typ, bytes(data[pos:pos + length])))
        pos += length
    return items


def parse_contact(buf, pos=0):
    '''Returns (dict, new position).'''
    _need(buf, pos, 6)
    head = dict(kind='CONTACT', magic=bytes(buf[pos:pos + 4]), version=buf[pos + 4], flags=buf[pos + 5])
    return head, pos + 6


def parse_message(buf, pos=0):
    '''Parse one message starting at pos.  Returns (dict, new position);
    raises Partial if incomplete, Malformed if the type is unknown.'''
    _need(buf, pos, 1)
    typ = buf[pos]
    p = pos + 1
    if typ == XFER_SEGMENT:
        _need(buf, p, 9)
        flags = buf[p]
        (tid,) = struct.unpack_from('!Q', buf, p + 1)
        p += 9
        ext = []
        if flags & FLAG_START:
            _need(buf, p, 4)
            (elen,) = struct.unpack_from('!I', buf, p)
            p += 4
            _need(buf, p, elen)
            ext = parse_ext_items(bytes(buf[p:p + elen]))
            p += elen
        _need(buf, p, 8)
        (dlen,) = struct.unpack_from('!Q', buf, p)
        p += 8
        _need(buf, p, dlen)
        data = bytes(buf[p:p + dlen])
        p += dlen
        return dict(kind='XFER_SEGMENT', flags=flags, transfer_id=tid, ext=ext, data=data), p
    if typ == XFER_ACK:
        _need(buf, p, 17)
        flags = buf[p]
        (tid, length) = struct.unpack_from('!QQ', buf, p + 1)
        return dict(kind='XFER_ACK', flags=flags, transfer_id=tid, length=length), p + 17
    if typ == XFER_REFUSE:
        _need(buf, p, 9)
        reason = buf[p]
        (tid,) = struct.unpack_from('!Q', buf, p + 1)
        return dict(kind='XFER_REFUSE', reason=reason, transfer_id=tid), p + 9
    if typ == KEEPALIVE:
        return dict(kind='KEEPALIVE'), p
    if typ == SESS_TERM:
        _need(buf, p, 2)
        return dict(kind='SESS_TERM', flags=buf[p], reason=buf[p + 1]), p + 2
    if typ == MSG_REJECT:
        _need(buf, p, 2)
        return dict(kind='MSG_REJECT', rej_msg_id=buf[p], reason=buf[p + 1]), p + 2
    if typ == SESS_INIT:
        _need(buf, p, 20)
        (keepalive, seg_mru, xfer_mru, nlen) = struct.unpack_from('!HQQH', buf, p)
        p += 20
        _need(buf, p, nlen)
        node_id = bytes(buf[p:p + nlen])
        p += nlen
        _need(buf, p, 4)
        (elen,) = struct.unpack_from('!I', buf, p)
        p += 4
        _need(buf, p, elen)
        ext = parse_ext_items(bytes(buf[p:p + elen]))
        p += elen
        return dict(kind='SESS_INIT', keepalive=keepalive, segment_mru=seg_mru, transfer_mru=xfer_mru,
                    node_id=node_id, ext=ext), p
    raise Malformed('unknown message type 0x%02x' % typ)


class StreamParser(object):
    '''Incremental decoder for one direction of a connection.'''

    def __init__(self):
        self.buf = b''
        self.got_contact = False
        self.dead = None   # text when the stream became unparseable

    def feed(self, data):
        '''Returns the list of messages completed by these octets.'''
        out = []
        if self.dead:
            return out
        self.buf += bytes(data)
        while self.buf:
            try:
                if not self.got_contact:
                    (msg, pos) = parse_contact(self.buf, 0)
                    self.got_contact = True
                else:
                    (msg, pos) = parse_message(self.buf, 0)
            except Partial:
                break
            except Malformed as err:
                self.dead = str(err)
                out.append(dict(kind='MALFORMED', text=str(err)))
                break
            msg['raw'] = self.buf[:pos]
            self.buf = self.buf[pos:]
            out.append(msg)
        return out

    def pending(self):
        return len(self.buf)


def parse_all(data, with_contact=True):
    '''Decode a complete octet string; returns (messages, remainder).'''
    sp = StreamParser()
    sp.got_contact = not with_contact
    msgs = sp.feed(data)
    return msgs, sp.buf
