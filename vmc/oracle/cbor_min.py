'''Minimal independent CBOR reader/writer (RFC 8949 subset): unsigned/negative
integers, byte/text strings, definite and indefinite arrays, maps, tags, simple
values false/true/null/undefined.  The reader reports the encoded span of every
item.  Does not import cbor2.'''
import struct


class Break(object):
    pass


class Tagged(object):
    def __init__(self, tag, value):
        self.tag = tag
        self.value = value

    def __eq__(self, other):
        return isinstance(other, Tagged) and (self.tag, self.value) == (other.tag, other.value)

    def __repr__(self):
        return 'Tagged(%d, %r)' % (self.tag, self.value)


class Undefined(object):
    def __repr__(self):
        return 'undefined'


UNDEFINED = Undefined()


class DecodeError(Exception):
    pass


def enc_head(major, value):
    if value < 24:
        return bytes([(major << 5) | value])
    if value < 1 << 8:
        return bytes([(major << 5) | 24, value])
    if value < 1 << 16:
        return bytes([(major << 5) | 25]) + struct.pack('>H', value)
    if value < 1 << 32:
        return bytes([(major << 5) | 26]) + struct.pack('>I', value)
    if value < 1 << 64:
        return bytes([(major << 5) | 27]) + struct.pack('>Q', value)
    raise ValueError('integer too large for CBOR head')


def head_len(value):
    return len(enc_head(0, value))


def dumps(obj):
    if obj is None:
        return b'\xf6'
    if obj is True:
        return b'\xf5'
    if obj is False:
        return b'\xf4'
    if obj is UNDEFINED:
        return b'\xf7'
    if isinstance(obj, int):
        if obj >= 0:
            return enc_head(0, obj)
        return enc_head(1, -1 - obj)
    if isinstance(obj, (bytes, bytearray)):
        return enc_head(2, len(obj)) + bytes(obj)
    if isinstance(obj, str):
        raw = obj.encode('utf-8')
        return enc_head(3, len(raw)) + raw
    if isinstance(obj, (list, tuple)):
        return enc_head(4, len(obj)) + b''.join(dumps(i) for i in obj)
    if isinstance(obj, dict):
        return enc_head(5, len(obj)) + b''.join(dumps(k) + dumps(v) for (k, v) in obj.items())
    if isinstance(obj, Tagged):
        return enc_head(6, obj.tag) + dumps(obj.value)
    raise TypeError('cannot encode %r' % (obj,))


def dumps_canonical_map(obj):
    '''Map with keys in bytewise lexicographic order of their encodings (RFC 8949 4.2.1).'''
    pairs = sorted(((dumps(k), dumps(v)) for (k, v) in obj.items()), key=lambda kv: kv[0])
    return enc_head(5, len(pairs)) + b''.join(k + v for (k, v) in pairs)


def dumps_indef_array(items_encoded):
    return b'\x9f' + b''.join(items_encoded) + b'\xff'


def _read_head(data, pos):
    if pos >= len(data):
        raise DecodeError('truncated')
    ib = data[pos]
    major = ib >> 5
    info = ib & 0x1F
    pos += 1
    if info < 24:
        return major, info, pos, False
    if info == 24:
        need = 1
    elif info == 25:
        need = 2
    elif info == 26:
        need = 4
    elif info == 27:
        need = 8
    elif info == 31:
        return major, None, pos, True
    else:
        raise DecodeError('reserved additional information %d' % info)
    if pos + need > len(data):
        raise DecodeError('truncated')
    val = int.from_bytes(data[pos:pos + need], 'big')
    return major, val, pos + need, False


def load(data, pos=0):
    '''Decode one item at pos.  Returns (value, end, info) where info describes
    the shape: dict(indef=bool, spans=[(start,end) of children]) for arrays.'''
    start = pos
    major, val, pos, indef = _read_head(data, pos)
    if indef and major in (0, 1, 6):
        raise DecodeError('indefinite length on a type that has none')
    if major == 0:
        return val, pos, None
    if major == 1:
        return -1 - val, pos, None
    if major in (2, 3):
        if indef:
            chunks = []
            while True:
                if pos >= len(data):
                    raise DecodeError('truncated')
                if data[pos] == 0xFF:
                    pos += 1
                    break
                (chunk, pos, _i) = load(data, pos)
                if not isinstance(chunk, bytes if major == 2 else str):
                    raise DecodeError('chunk of an indefinite string has another type')
                chunks.append(chunk)
            if major == 2:
                return b''.join(chunks), pos, dict(indef=True)
            return ''.join(chunks), pos, dict(indef=True)
        if pos + val > len(data):
            raise DecodeError('truncated')
        raw = bytes(data[pos:pos + val])
        pos += val
        if major == 2:
            return raw, pos, dict(indef=False, head=pos - val - start)
        try:
            return raw.decode('utf-8'), pos, None
        except UnicodeDecodeError:
            raise DecodeError('invalid UTF-8')
    if major == 4:
        items = []
        spans = []
        infos = []
        if indef:
            while True:
                if pos >= len(data):
                    raise DecodeError('truncated')
                if data[pos] == 0xFF:
                    pos += 1
                    break
                s0 = pos
                (item, pos, info) = load(data, pos)
                items.append(item)
                spans.append((s0, pos))
                infos.append(info)
        else:
            for _ in range(val):
                s0 = pos
                (item, pos, info) = load(data, pos)
                items.append(item)
                spans.append((s0, pos))
                infos.append(info)
        return items, pos, dict(indef=indef, spans=spans, infos=infos)
    if major == 5:
        out = {}
        count = 0
        while True:
            if indef:
                if pos >= len(data):
                    raise DecodeError('truncated')
                if data[pos] == 0xFF:
                    pos += 1
                    break
            elif count >= val:
                break
            (key, pos, _i) = load(data, pos)
            (value, pos, _i) = load(data, pos)
            try:
                if key in out:
                    raise DecodeError('duplicate map key')
                out[key] = value
            except TypeError:
                raise DecodeError('unhashable map key')
            count += 1
        return out, pos, dict(indef=indef)
    if major == 6:
        (inner, pos, info) = load(data, pos)
        return Tagged(val, inner), pos, info
    if major == 7:
        if indef:
            raise DecodeError('unexpected break')
        if val == 20:
            return False, pos, None
        if val == 21:
            return True, pos, None
        if val == 22:
            return None, pos, None
        if val == 23:
            return UNDEFINED, pos, None
        raise DecodeError('unsupported simple/float value %d' % val)
    raise DecodeError('bad major type')


def loads(data):
    (val, pos, _info) = load(bytes(data), 0)
    if pos != len(data):
        raise DecodeError('%d trailing octets' % (len(data) - pos))
    return val
