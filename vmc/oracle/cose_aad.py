'''Independent statement of what a BPSec COSE-context security result covers:
the external AAD built from an independently decoded bundle (security source,
canonical AAD-scope map, per-scope-entry block metadata / block data,
additional protected parameters) and the "covered tuple" of one target.
Also an independent COSE_Mac0 / HMAC-SHA-256 producer (hashlib only) used to
build integrity blocks with AAD scopes the repository's source side never
emits.  Imports nothing from /repo, pycose or cbor2.'''
import hashlib
import hmac

from . import bpv7 as B
from . import cbor_min as C

SCOPE_METADATA = 0x01
SCOPE_BTSD = 0x02

COSE_MAC0 = 17
COSE_MAC = 97
COSE_SIGN1 = 18
COSE_ENC0 = 16
COSE_ENC = 96

ALG_HMAC256 = 5
HDR_ALG = 1
HDR_KID = 4


class NoTuple(Exception):
    '''The covered tuple cannot be formed (missing block, bad structure).'''


def scope_of(asb):
    scope = {0: 1, -1: 1, -2: 1}
    protected = b''
    for (pid, val) in asb['params']:
        if pid == 5:
            if not isinstance(val, dict):
                raise NoTuple('AAD scope is not a map')
            scope = dict(val)
        elif pid == 3:
            if not isinstance(val, bytes):
                raise NoTuple('additional protected is not a byte string')
            protected = val
    return scope, protected


def _sort_key(k):
    return C.dumps(k)


def external_aad(bundle, sec_blk, asb, target_num):
    '''AAD for one target of a security block of an (independently decoded) bundle.'''
    (scope, protected) = scope_of(asb)
    out = C.dumps(B.eid_to_item(asb['source']))
    out += C.dumps_canonical_map(scope)
    blocks = {b['num']: b for b in bundle['blocks']}
    for key in sorted(scope, key=_sort_key):
        flags = scope[key]
        if not isinstance(key, int) or not isinstance(flags, int):
            raise NoTuple('AAD scope entry is not integer -> integer')
        if key == 0:
            if flags & SCOPE_METADATA:
                out += B.enc_primary(bundle['primary'])
            continue
        if key == -1:
            blk = blocks.get(target_num)
        elif key == -2:
            blk = sec_blk
        else:
            blk = blocks.get(key)
        if blk is None:
            raise NoTuple('block %r named in the AAD scope is absent' % (key,))
        if flags & SCOPE_METADATA:
            out += C.dumps(blk['type']) + C.dumps(blk['num']) + C.dumps(blk['flags'])
        if flags & SCOPE_BTSD:
            out += C.dumps(bytes(blk['data']))
    out += C.dumps(protected)
    return out


def covered_tuples(bundle, sec_type=B.T_BIB):
    '''For every security block of the given type and each of its targets:
    (AAD, target block data, COSE message items except the unprotected map).
    Raises NoTuple when a tuple cannot be formed.'''
    out = []
    blocks = {b['num']: b for b in bundle['blocks']}
    for blk in bundle['blocks']:
        if blk['type'] != sec_type:
            continue
        try:
            asb = B.dec_asb(blk['data'])
        except B.Malformed as err:
            raise NoTuple('security block data: %s' % err)
        if len(asb['results']) != len(asb['targets']):
            raise NoTuple('result count differs from target count')
        for (tnum, results) in zip(asb['targets'], asb['results']):
            tgt = blocks.get(tnum)
            if tnum == 0 or tgt is None:
                raise NoTuple('target block %r absent' % (tnum,))
            if len(results) != 1:
                raise NoTuple('not exactly one result for target %r' % (tnum,))
            (rtype, rval) = results[0]
            try:
                msg = C.loads(rval)
            except Exception as err:
                raise NoTuple('result is not CBOR: %s' % err)
            if not isinstance(msg, list) or len(msg) < 3:
                raise NoTuple('result is not a COSE array')
            aad = external_aad(bundle, blk, asb, tnum)
            covered = (rtype, asb['context'], aad, bytes(tgt['data']), msg[0], tuple(C.dumps(m) for m in msg[3:]))
            out.append((blk['num'], tnum, covered, msg[1]))
    return out


def mac0_result(key, kid, aad, payload, protected=None):
    '''COSE_Mac0 with detached payload, HMAC 256/256, as a security result value.'''
    if protected is None:
        protected = C.dumps({HDR_ALG: ALG_HMAC256})
    structure = C.dumps(['MAC0', protected, aad, bytes(payload)])
    tag = hmac.new(key, structure, hashlib.sha256).digest()
    return C.dumps([protected, {HDR_KID: kid}, None, tag])


def add_bib(bundle, targets, key, kid, source, scope=None, num=None, protected_params=None, per_target=None):
    '''Return a copy of the bundle with an independently produced BIB.
    per_target: optional list of (key, kid written into the result) per target.'''
    blocks = [dict(b) for b in bundle['blocks']]
    used = {b['num'] for b in blocks}
    if num is None:
        num = 2
        while num in used:
            num += 1
    params = []
    if scope is not None:
        params.append((5, dict(scope)))
    if protected_params is not None:
        params.append((3, protected_params))
    asb = dict(targets=list(targets), context=3, flags=1 if params else 0, source=source, params=params, results=[])
    sec_blk = dict(type=B.T_BIB, num=num, flags=0, crc_type=0, data=b'')
    out = dict(primary=dict(bundle['primary']), blocks=[sec_blk] + blocks)
    for (k, tnum) in enumerate(targets):
        aad = external_aad(out, sec_blk, asb, tnum)
        tgt = [b for b in blocks if b['num'] == tnum][0]
        (tkey, tkid) = per_target[k] if per_target else (key, kid)
        asb['results'].append([(COSE_MAC0, mac0_result(tkey, tkid, aad, tgt['data']))])
    sec_blk['data'] = B.enc_asb(asb)
    return out
