'''Whole nodes over UDPCL: in each process a real `bp.agent.Agent` attached through the real
`bp.cla.UdpclAdaptor` to a real `udpcl.agent.Agent` on the same bus; the UDPCL agents are joined
by the virtual datagram network.  The adaptor pops a received bundle when the finished signal
arrives and hands it to the BP agent; it sends through `send_bundle_data` with the address and
port of the route.  Routes may carry an MTU (the BP agent fragments) and the UDPCL agents have
an MTU of their own (the convergence layer segments).'''
import re

from . import env as _env
from . import vsocket
from .world import World, HarnessError
from .agent_world import SignalLog
from . import bp_world as _bpw
from .props import c13 as _c13

UDPCL_PATH = '/org/ietf/dtn/udpcl/Agent'
UDPCL_IFACE = 'org.ietf.dtn.udpcl.Agent'
BP_AGENT_PATH = '/org/ietf/dtn/bp/Agent'
UDPCL_NAME = 'org.ietf.dtn.node.udpcl'


class UdpNodeWorld(World):
    '''params: nodes (2 or 3); cl_mtu = MTU of the UDPCL agents (None: unlimited);
    routes = {node: [(pattern, next node, route MTU or None)]}; poll = [(from node, to node)]:
    the first node announces itself to the second by a polling datagram when it starts.'''

    ADDR = ['10.2.0.1', '10.2.0.2', '10.2.0.3']

    def __init__(self, params):
        World.__init__(self)
        self.params = dict(nodes=2, cl_mtu=None, routes={0: [('^dtn://n1/.*', 1, None)], 1: [('^dtn://n0/.*', 0, None)]}, poll=[])
        self.params.update(params)
        uns = _c13._inject()
        _bpw._install_probe()
        bpns = _env.load_bp()
        self.net = vsocket.DgramNet()
        self.sig = SignalLog()
        self.monitors = [self.sig]
        self.api_errors = []
        cfgmod = bpns.config
        for i in range(self.params['nodes']):
            proc = self.add_proc('N%d' % i)
            polls = [uns.config.PollConfig(address=self.ADDR[dst], port=4556, interval_ms=60000)
                     for (src, dst) in self.params['poll'] if src == i]
            ucfg = uns.config.Config(node_id='dtn://n%d/' % i, mtu_default=self.params['cl_mtu'],
                                     init_listen=[uns.config.ListenConfig(address=self.ADDR[i], port=4556)], polling=polls)
            ucfg._bus_conn = proc.bus
            routes = []
            for (pat, nxt, mtu) in self.params['routes'].get(i, []):
                routes.append(cfgmod.TxRouteItem(eid_pattern=re.compile(pat), next_nodeid='dtn://n%d/' % nxt, cl_type='udpcl', mtu=mtu,
                                                 raw_config=dict(address=self.ADDR[nxt], port=4556)))
            bcfg = cfgmod.Config(node_id='dtn://n%d/' % i,
                                 rx_route_table=[cfgmod.RxRouteItem(eid_pattern=re.compile('^dtn://n%d/.*' % i), action='deliver'),
                                                 cfgmod.RxRouteItem(eid_pattern=re.compile('.*'), action='forward')],
                                 tx_route_table=routes)
            bcfg._bus_conn = proc.bus

            def make(ucfg=ucfg, bcfg=bcfg, proc=proc):
                proc.bus.request_name(UDPCL_NAME)
                uagent = uns.agent.Agent(ucfg, bus_kwargs=dict(conn=proc.bus, object_path=UDPCL_PATH))
                bagent = bpns.agent.Agent(bcfg, bus_kwargs=dict(conn=proc.bus, object_path=BP_AGENT_PATH))
                bagent.cl_attach('udpcl', UDPCL_NAME)
                return (uagent, bagent)
            (uagent, bagent) = self.in_proc(proc, make)
            proc.roots['agent'] = uagent
            proc.roots['bp'] = bagent
        self.collect(('init',))

    def activate(self, proc=None):
        _c13._CUR_NET[0] = self.net
        World.activate(self, proc)

    def canon_extra(self, c):
        c.walk(self.net)

    def pending_work(self):
        for proc in self.procs.values():
            agent = proc.roots['agent']
            for wait in agent._send_wait.values() if hasattr(agent, '_send_wait') else []:
                if wait.glib_timer_id is not None:
                    return True
        return False

    def quiesce(self, order=None, deliver='fifo', max_steps=200000):
        '''Run callbacks in priority order, deliver datagrams (first / last in flight first), let the
        pacing timers fire; until nothing is left.'''
        steps = 0
        names = list(order) if order else sorted(self.procs)
        while True:
            steps += 1
            if steps > max_steps:
                raise HarnessError('UDP node world does not become quiescent')
            ran = False
            for name in names:
                if self.runnable(self.procs[name]):
                    self.apply(('run', name))
                    ran = True
                    break
            if ran:
                continue
            if self.net.in_flight:
                self.activate(None)
                self.net.deliver(0 if deliver == 'fifo' else len(self.net.in_flight) - 1)
                continue
            if self.pending_work() and self.next_deadline() is not None:
                self.apply(('tick',))
                continue
            return

    def run_until(self, limit_us, order=None, deliver='fifo'):
        '''Let the clock reach limit_us (timers in between fire, e.g. the first polling announcement).'''
        while True:
            self.quiesce(order, deliver)
            nxt = self.next_deadline()
            if nxt is None or nxt > limit_us:
                return
            self.apply(('tick',))

    def bp(self, i):
        return self.procs['N%d' % i].roots['bp']

    def probe(self, i):
        proc = self.procs['N%d' % i]
        return proc.bus._objects['/org/ietf/dtn/bp/app/probe'].seen

    def send(self, i, ctr):
        from gi.repository import GLib
        proc = self.procs['N%d' % i]
        self.activate(proc)
        try:
            try:
                self.bp(i).send_bundle(ctr)
                return None
            except Exception as err:
                import traceback
                self.api_errors.append((type(err).__name__, str(err), traceback.format_exc()))
                return err
        finally:
            GLib.set_current(None)
            self.collect(('user',))

    def rx_queue(self, i):
        proc = self.procs['N%d' % i]
        res = self.bus_call(proc, UDPCL_PATH, 'recv_bundle_get_queue', iface=UDPCL_IFACE)
        return [str(x) for x in res[1]] if res[0] == 'ok' else res
