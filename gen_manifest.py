#!/usr/bin/env python3
'''Regenerates MANIFEST.json from the table below (kept in one place so the
manifest stays valid while checks are added).'''
import json

CMD = 'cd /verif && PYTHONHASHSEED=0 /venv/bin/python -m vmc.check {id} --tier {tier}'

MC_NOTE = ('Trusted base: CPython, scapy, the harness stand-ins for GLib/dbus/sockets (self-tested; GLib dispatch order '
           'and dbus marshalling rules probed from the real libraries on this image), copy.deepcopy fidelity '
           '(snapshots are re-validated against replay on fresh real objects). Bounds: workloads, deviation bound and '
           'caps are reported in the evidence file.')
EN_NOTE = ('Trusted base: CPython, scapy, cbor2, pycose, cryptography and the harness stand-ins (crcmod, portion, '
           'certvalidator). The enumerated space is the finite product stated in the evidence rule; values strictly '
           'between two enumerated boundary values are not covered.')

CHECKS = {
    'C01': ('model_checking', 'explicit-state model checking of the implementation (two real endpoints, virtual GLib/TCP)',
            'Every interleaving of the two endpoints\' event-loop callbacks and of user send calls, with bounded short-read/'
            'short-write/EAGAIN deviations, is enumerated on the real ContactHandler objects; exactly-once/in-order/intact '
            'delivery is an invariant of every transition and completeness a property of every bottom SCC.', '6 C01'),
    'C04': ('model_checking', 'explicit-state model checking of the implementation with an independent wire-protocol automaton',
            'Same state graphs plus terminate() anywhere; every octet written is decoded by an independent incremental '
            'RFC 9174 decoder that drives a sequencing automaton evaluated on every transition.', '6 C04'),
    'C09': ('model_checking', 'explicit-state model checking with bottom-SCC liveness analysis',
            'terminate()/close() by either or both users at every between-iteration state; safety on every transition, '
            'closure/completion/reporting on every bottom SCC of the finished graph.', '6 C09'),
}

CHECKS.update({
    'C02': ('exploration', 'bounded-exhaustive enumeration against an independent RFC 9171 codec (three-way round trip)',
            'Finite product of boundary field values, flag subsets, EID forms, CRC types, block lists and status reports is '
            'enumerated completely; each point is encoded/decoded by the implementation and by an independent codec and all '
            'three round trips must agree octet for octet.', '6 C02'),
    'C07': ('model_checking', 'complete state graph over delivered-octet counts per stream, plus codec differential',
            'For every stream of the menu every edge "deliver the next j octets" of the delivered-octet graph is executed on '
            'the real endpoint and must land on the reference state, which covers all 2^(n-1) chunkings; observations may '
            'change only at message ends found by an independent framer.', '6 C07'),
    'C08': ('fault_enumeration', 'exhaustive bit-flip / burst fault enumeration judged by an independent decoder and CRC',
            'Every single-bit flip and burst pattern inside every CRC-protected block of a menu of bundles is delivered to '
            'a fresh real agent followed by the pristine copy; output CRCs are recomputed independently.', '6 C08'),
    'C11': ('exploration', 'bounded-exhaustive enumeration of received bundles and two-bundle histories, decoded independently',
            'Every combination of hop-by-hop extension blocks, CRC types, numbering schemes, clock/no-clock and MTU is '
            'forwarded by a real agent; the transmitted octets are decoded by the independent decoder.', '6 C11'),
    'C14': ('model_checking', 'timed explicit-state model checking under a virtual clock',
            'Timed state graphs of two real endpoints for every keepalive/idle combination; KEEPALIVE and idle-timeout '
            'timing, negotiated values and segment sizes are judged on every transition and quiescent state.', '6 C14'),
    'C17': ('model_checking', 'explicit-state search of a real endpoint against an adversarial peer alphabet',
            'Every sequence of out-of-place / unknown-id / malformed-header messages up to the depth bound, in every '
            'reachable state, judged by a reference receiver and an epilogue transfer in each direction.', '6 C17'),
    'C18': ('model_checking', 'explicit-state model checking with D-Bus marshalling rules probed from the real library',
            'User send/pop/terminate calls at every between-iteration state; queues, idle flag and state are read through '
            'the recording bus in every state and every emission is marshalled against its declared signature.', '6 C18'),
})

CHECKS.update({
    'C03': ('fault_enumeration', 'exhaustive single-bit and field-level fault enumeration judged by an independent covered-tuple (AAD) model',
            'Every single-bit flip of integrity-protected bundles (real transmit chain for COSE_Mac0 / COSE_Sign1, independent '
            'HMAC producer for other AAD scopes) plus field edits is fed to a verifier agent; the independent model says '
            'whether what the block covers changed.', '6 C03'),
    'C05': ('exploration', 'bounded-exhaustive (payload length, MTU) grid on the real send path, decoded independently',
            'Grid across the CBOR head boundaries x CRC x extension sets x origin x flags x integrity policy; all octets '
            'reaching the convergence layer for one send request are judged by a tiling model.', '6 C05'),
    'C06': ('model_checking', 'explicit-state search over fragment arrival histories (replay on fresh real agents)',
            'Every arrival history up to the depth bound over mixed fragmentations, duplicates, the whole bundle and '
            'look-alike bundles with idle callbacks interleaved; reference coverage is a set of integers.', '6 C06'),
    'C10': ('model_checking', 'explicit-state search over receive histories x routing tables (replay on fresh real agents)',
            'All receive histories up to the depth bound over ten bundles x five routing tables, idle callbacks '
            'interleaved; a reference router with identity memory predicts deliveries and transmissions.', '6 C10'),
    'C12': ('fault_enumeration', 'enumeration of a security-block malformation menu x key stores x acceptance x reporting',
            'Each malformation of BIB/BCB structure or content is applied to a valid bundle and fed to a fresh agent; a '
            'probe application behind the security steps must not see it and the deletion reason must be a security one.', '6 C12'),
    'C16': ('fault_enumeration', 'plaintext-length x mode enumeration with exhaustive bit-flip fault injection',
            'Wire octets are searched for the plaintext, exact recovery is required with the key, failure without it, and '
            'every single-bit flip is judged by the independent covered-tuple model.', '6 C16'),
    'C19': ('exploration', 'complete decision-table enumeration against a reference report generator',
            'All 32 request-flag combinations x report-to x 8 outcomes on a fresh real agent; every administrative record '
            'reaching the convergence layer is decoded independently.', '6 C19'),
})

CHECKS.update({
    'C13': ('model_checking', 'explicit-state search over datagram arrival histories plus exhaustive sizing grid on the real send path',
            'A real receiving agent under every arrival history (segments of two transfers, another peer, multi-message '
            'datagrams, duplicates) up to the depth bound with a reference coverage model; (length, MTU) grid on the real '
            'send path under virtual time; range coding over all subsets.', '6 C13'),
    'C15': ('exploration', 'complete decision-table enumeration against an independent policy statement',
            'All 48 TLS-capability/requirement rows and all 1024 certificate-SAN x requirement rows on a fresh real '
            'endpoint with a scripted TLS context and real X.509 certificates.', '6 C15'),
    'C20': ('exploration', 'exhaustive enumeration: message-set product, (length, MTU) grid, all arrival permutations',
            'Three-way codec round trip with an independent BTP-U codec; sizing grid on the real send path; every '
            'permutation of 3-5 segments with a second transfer interleaved on a fresh real receiving agent.', '6 C20'),
})

NOT_YET = {
}


def main():
    props = [json.loads(l) for l in open('/verif/properties.jsonl')]
    checks = []
    na = []
    for p in props:
        pid = p['id']
        if pid in CHECKS:
            (cat, tech, text, ref) = CHECKS[pid]
            checks.append(dict(
                property_id=pid,
                quick_cmd=CMD.format(id=pid, tier='quick'),
                thorough_cmd=CMD.format(id=pid, tier='thorough'),
                evidence_file='/verif/evidence/%s.json' % pid,
                replay_cmd_template='cd /verif && PYTHONHASHSEED=0 /venv/bin/python -m vmc.replay {path} -v',
                engine='vmc',
                level_claimed=dict(category=cat, text=text, design_ref=ref),
                level_note=MC_NOTE if cat == 'model_checking' else EN_NOTE,
                technique=tech,
            ))
        else:
            na.append(dict(property_id=pid, reason=NOT_YET.get(
                pid, 'check designed in DESIGN.md section 6 but not built yet in this session; not claimed until its check exists')))
    manifest = dict(
        version=1,
        setup_cmd='cd /verif && ./setup.sh',
        hooks=dict(
            guard='DTN_DEMO_AGENT_VERIF',
            enable='none needed: no instrumentation was added to /repo; checks import /repo/src from the working tree',
            baseline_off_cmd='cd /repo && /venv/bin/python -m pytest -ra -q -p no:cacheprovider --timeout=900 --continue-on-collection-errors',
            source_commits=[],
            add_only=True,
        ),
        engines=[dict(name='vmc', path='/verif/vmc', serves_properties=sorted(CHECKS),
                      kind_free_text='hand-written explicit-state explorer and bounded-exhaustive enumerator over the real Python '
                                     'classes, run inside a virtual GLib main loop / virtual sockets / virtual clock / loop-back D-Bus')],
        checks=checks,
        notes='See DESIGN.md. Genuine defects found by the checks were repaired in /repo as "fix:" commits and are listed '
              'in KNOWN_FINDINGS.json under "fixed"; recorded-but-unrepaired defects are under "findings".',
        not_applicable=na,
    )
    with open('/verif/MANIFEST.json', 'w') as fobj:
        json.dump(manifest, fobj, indent=1)
    print('checks', len(checks), 'not_applicable', len(na))


if __name__ == '__main__':
    main()
