#!/usr/bin/env python3
'''Prints the per-check numbers of the evidence files as a markdown table (pasted into DESIGN.md §1).'''
import json
import os

HERE = os.path.dirname(os.path.abspath(__file__))
print('| id | tier | scenarios | states | transitions | traces replayed on fresh objects | enumerated cases | distinct non-trivial | exhaustive | wall s |')
print('|---|---|---|---|---|---|---|---|---|---|')
for i in range(1, 21):
    pid = 'C%02d' % i
    ev = json.load(open(os.path.join(HERE, 'evidence', pid + '.json')))
    cov = ev['coverage']
    def g(k):
        v = cov.get(k)
        if isinstance(v, list):
            v = len(v)
        return '-' if v in (None, 0) else str(v)
    print('| %s | %s | %s | %s | %s | %s | %s | %s | %s | %.0f |' % (
        pid, ev.get('tier'), g('scenarios'), g('states'), g('transitions'), g('traces_validated_against_impl'),
        g('evaluations'), g('distinct_nontrivial') if 'distinct_nontrivial' in cov else g('distinct_outcomes'),
        cov.get('exhaustive'), ev.get('wall_s', 0)))
